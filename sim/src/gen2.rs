//! Additional actors (router, reward authority, ...).

use crate::decode::{self, MAX_TICK, MIN_TICK};
use crate::gen::{pick_limit, swap_tick_arrays, Actor, Knobs, World};
use crate::ix::{self, TwoHopAccounts, TwoHopArgs};
use crate::model;
use crate::rt::{self, Ledger, Tx};
use crate::world;

pub fn plan_router(w: &World, knobs: &Knobs, actor: &mut Actor, l: &Ledger) -> Vec<(Tx, String)> {
    let rng = &mut actor.rng.clone();
    let mut flow = Vec::new();
    if w.pools.len() < 2 {
        return flow;
    }
    for attempt in 0..4 {
        let i1 = rng.idx(w.pools.len());
        let mut i2 = rng.idx(w.pools.len());
        // same pool twice: must be rejected (rare)
        if i2 == i1 && !rng.chance(1, 25) {
            i2 = (i1 + 1 + rng.idx(w.pools.len() - 1)) % w.pools.len();
        }
        let (p1, p2) = (&w.pools[i1].keys, &w.pools[i2].keys);
        let (Some(s1), Some(s2)) = (l.data(&p1.whirlpool).and_then(decode::pool), l.data(&p2.whirlpool).and_then(decode::pool)) else {
            continue;
        };
        // shared mint: output of leg one = input of leg two
        let shared = [p1.mint_a, p1.mint_b].into_iter().find(|m| *m == p2.mint_a || *m == p2.mint_b);
        let (mut a_to_b_one, mut a_to_b_two) = match shared {
            Some(x) => (p1.mint_b == x, p2.mint_a == x),
            None => (rng.chance(1, 2), rng.chance(1, 2)),
        };
        if rng.chance(1, 30) {
            a_to_b_one = !a_to_b_one; // wrong direction: intermediate mint mismatch
        }
        if rng.chance(1, 30) {
            a_to_b_two = !a_to_b_two;
        }
        let is_input = rng.chance(1, 2);
        let amount = match rng.below(12) {
            0 => 1,
            1 => u64::MAX,
            2..=7 => {
                let liq = if is_input { s1.liquidity } else { s2.liquidity };
                let bits = (128 - liq.leading_zeros()).saturating_sub(2 + rng.below(12) as u32).clamp(3, 60);
                rng.log_u64(bits)
            }
            _ => rng.log_u64(knobs.swap_bits.min(50)),
        };
        let mut limit_one = if rng.chance(2, 3) { 0 } else { pick_limit(rng, l, &p1.whirlpool, &s1, a_to_b_one) };
        let mut limit_two = if rng.chance(2, 3) { 0 } else { pick_limit(rng, l, &p2.whirlpool, &s2, a_to_b_two) };
        if attempt >= 2 {
            let far = |s: &decode::Pool, atb: bool, rng: &mut crate::rng::Rng| {
                let dt = 1 + rng.below(60 * s.tick_spacing as u64) as i32;
                let t = if atb { s.tick_current_index - dt } else { s.tick_current_index + dt };
                model::sqrt_price_of_tick(t.clamp(MIN_TICK, MAX_TICK))
            };
            if rng.chance(1, 2) {
                limit_one = far(&s1, a_to_b_one, rng);
            }
            if rng.chance(1, 2) {
                limit_two = far(&s2, a_to_b_two, rng);
            }
        }
        let t = TwoHopAccounts {
            one: p1.clone(),
            two: p2.clone(),
            authority: actor.wallet,
            owner_one_a: actor.tokens[&p1.mint_a],
            owner_one_b: actor.tokens[&p1.mint_b],
            owner_two_a: actor.tokens[&p2.mint_a],
            owner_two_b: actor.tokens[&p2.mint_b],
            tick_arrays_one: swap_tick_arrays(&s1, &p1.whirlpool, a_to_b_one),
            tick_arrays_two: swap_tick_arrays(&s2, &p2.whirlpool, a_to_b_two),
        };
        let mut args = TwoHopArgs {
            amount,
            other_amount_threshold: if is_input { 0 } else { u64::MAX },
            amount_specified_is_input: is_input,
            a_to_b_one,
            a_to_b_two,
            sqrt_price_limit_one: limit_one,
            sqrt_price_limit_two: limit_two,
        };
        let v2 = rng.chance(1, 2);
        let build = |a: &TwoHopArgs| if v2 { ix::two_hop_swap_v2(&t, a) } else { ix::two_hop_swap(&t, a) };
        // quote on the current view
        let mut fork = l.clone();
        let in_acct = if a_to_b_one { t.owner_one_a } else { t.owner_one_b };
        let out_acct = if a_to_b_two { t.owner_two_b } else { t.owner_two_a };
        let (pi, po) = (world::token_amount(&fork, &in_acct), world::token_amount(&fork, &out_acct));
        let o = rt::exec_tx_simple(&mut fork, &Tx { ixs: vec![build(&args)] });
        if o.ok {
            if rng.chance(1, 2) {
                let paid = pi.saturating_sub(world::token_amount(&fork, &in_acct));
                let got = world::token_amount(&fork, &out_acct).saturating_sub(po);
                let slip = match rng.below(3) {
                    0 => 0,
                    1 => 1,
                    _ => rng.below(1 + got.max(paid) / 200),
                };
                args.other_amount_threshold = if is_input { got.saturating_sub(slip) } else { paid.saturating_add(slip) };
            }
            flow.push((Tx { ixs: vec![build(&args)] }, if v2 { "two_hop_swap_v2".to_string() } else { "two_hop_swap".to_string() }));
            break;
        } else if rng.chance(1, 5) {
            flow.push((Tx { ixs: vec![build(&args)] }, if v2 { "two_hop_swap_v2".to_string() } else { "two_hop_swap".to_string() }));
            break;
        }
    }
    actor.rng = rng.clone();
    flow
}

pub fn plan_reward_auth(_w: &World, _k: &Knobs, _a: &mut Actor, _l: &Ledger) -> Vec<(Tx, String)> {
    Vec::new()
}
