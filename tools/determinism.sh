#!/bin/sh
# tools/determinism.sh [seeds per check] [only <ID>]
# Proves that one seed is one exactly repeatable execution: every (check, seed) is run in three
# separate processes - sequentially, sequentially again, and spread over 16 worker threads - and the
# event-log hashes (events + outcome codes + final ledger digest) must be identical.
N="${1:-40}"; ONLY="$2"
BIN=/verif/.target/release/wpsim
T=$(mktemp -d)
ARGS="selfcheck determinism --seeds $N"
[ -n "$ONLY" ] && ARGS="$ARGS --only $ONLY"
$BIN $ARGS > $T/a.txt || { echo "DETERMINISM: harness error"; exit 2; }
$BIN $ARGS > $T/b.txt || { echo "DETERMINISM: harness error"; exit 2; }
$BIN $ARGS --par > $T/c.txt || { echo "DETERMINISM: harness error"; exit 2; }
L=$(wc -l < $T/a.txt)
if cmp -s $T/a.txt $T/b.txt && cmp -s $T/a.txt $T/c.txt; then
  echo "DETERMINISM: ok ($L runs, 3 processes, 1 and 16 worker threads, identical event-log hashes)"
  rm -rf $T; exit 0
else
  echo "DETERMINISM: DIVERGENCE"; diff $T/a.txt $T/b.txt | head -5; diff $T/a.txt $T/c.txt | head -5
  rm -rf $T; exit 2
fi
