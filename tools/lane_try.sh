#!/bin/sh
# tools/lane_try.sh <lane> <patch file> <check id> [more ids...]
# Like try_seed.sh, but fully outside /repo and /verif: lane <lane> is a scratch worktree of /repo's HEAD plus a
# copy of the simulator (synced from /verif's HEAD commit at every call) with its own target directory under /tmp/lane/<lane>.
# Several lanes can run at the same time; /verif/sim can be edited meanwhile. `lane_try.sh <lane> --remove` cleans up.
LANE="$1"; P="$2"; shift 2
L=/tmp/lane/$LANE
if [ "$P" = "--remove" ]; then
  git -C /repo worktree remove --force $L/repo 2>/dev/null; rm -rf $L; git -C /repo worktree prune; exit 0
fi
mkdir -p $L/out
if [ ! -d $L/repo ]; then
  git -C /repo worktree prune
  git -C /repo worktree add -q --detach $L/repo HEAD || exit 2
fi
git -C $L/repo checkout -q -- .
git -C $L/repo checkout -q --detach "$(git -C /repo rev-parse HEAD)"
# the simulator as committed (HEAD of /verif), so that edits in progress in /verif/sim never reach a lane half-done
mkdir -p $L/sim $L/stage
rm -rf $L/stage/*; git -C /verif archive HEAD sim vendor | tar -x -C $L/stage
rsync -a --delete --checksum $L/stage/sim/ $L/sim/ --exclude target
rsync -a --delete --checksum $L/stage/vendor/ $L/vendor/
sed -i "s#/repo/#$L/repo/#g" $L/sim/Cargo.toml
sed -i "s#/verif/.target#$L/target#" $L/sim/.cargo/config.toml
grep -q "$L/target" $L/sim/.cargo/config.toml || { echo "target dir not redirected"; exit 2; }
export CARGO_NET_OFFLINE=true WPSIM_OUT=$L/out
if [ "$P" != "--none" ]; then
  if ! git -C $L/repo apply --check "$P" 2>/dev/null; then echo "PATCH DOES NOT APPLY: $P"; exit 2; fi
  git -C $L/repo apply "$P"
fi
if ! (cd $L/sim && cargo build --release --offline >$L/build.log 2>&1); then
  echo "BUILD FAILED"; grep -E "^error" -A8 $L/build.log | head -30
  git -C $L/repo checkout -q -- .
  exit 2
fi
for id in "$@"; do
  out=$($L/target/release/wpsim check "$id" --tier quick 2>&1)
  rc=$?
  echo "== $id rc=$rc :: $(echo "$out" | grep -m1 -A1 VIOLATION | tr '\n' ' ' | cut -c1-420)"
  echo "$out" | tail -1
done
git -C $L/repo checkout -q -- .
