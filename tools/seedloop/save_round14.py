import os,json,shutil,re,sys
D='/tmp/seedout14'
C="caught"
notes={
"C01":[("dynamic next-init search: the a_to_b loop bound excludes slot 0","C01 quick: vault_below_claims",C),
       ("Pinocchio token deltas round up on withdrawals too (round_up taken from the unsigned magnitude)","C01 quick: drain_insufficient_funds",C),
       ("Pinocchio pool write-back skipped when the timestamp did not advance (pool liquidity not written)","C01 quick: drain_step_refused",C)],
"C03":[("v1 swap exact-out: the maximum input is only checked when the full amount was delivered","C03 quick: threshold_boundary",C),
       ("two_hop_swap_v2 exact-out, second hop b_to_a: output grossed up with the input mint's fee","C03 quick: exact_out_overdelivered",C),
       ("v1 two_hop_swap exact-in: leg one computed with leg two's price limit","C03 quick: price_beyond_limit",C)],
"C04":[("Pinocchio owner comparison word by word, stopping one word early (the last 8 bytes of the key are never compared)","C04 quick: wrong_signer_accepted","MISSED at first (strangers' keys were unrelated to the right one); caught after near-miss keys - the recorded authority with its first / a middle / a last-word / its last byte changed"),
       ("Pinocchio reposition returns Ok at once on full-range-only pools (before any check on the caller)","C04 quick: wrong_signer_accepted",C),
       ("initialize_config records the collect-protocol-fees and reward-emissions super authorities in each other's place","C04 quick: authority_born_in_other_hands","MISSED at first (each later instruction is consistent with what was recorded); caught after: a config is born with each authority in its own role, as the arguments name them")],
"C05":[("swap_v2 exact-out re-packs the result with the pool's pre-swap liquidity","C05 quick: pool_liquidity",C),
       ("Pinocchio pool view: tick_spacing and fee_tier_index_seed swapped (adaptive-fee pools)","C05 quick: tick_initialized_flag",C),
       ("close_bundled_position drains the lamports by hand (the account stays usable until the transaction ends)","C18 quick: bundle_bitmap (C05 itself: not caught in the quick tier)","MISSED by C05 (caught by C18)")],
"C06":[("swap loop: the step's fee bookkeeping moved below the tick crossing (LP fee divided by the liquidity beyond the tick)","C06 quick: lp_growth_increment",C),
       ("collect_protocol_fees_v2 returns at once when the protocol fee rate is 0 (what is owed stays)","C06 quick: protocol_fee_not_reset",C),
       ("swap_v2: the oracle write-back is skipped when the reference was already refreshed at this timestamp","C14 quick: stored_accumulator (C06 itself: not caught)","MISSED by C06 (caught by C14)")],
"C07":[("dynamic next-init search: the a_to_b range excludes slot 0","C07 quick: credited_more_than_share",C),
       ("Pinocchio slot lookup narrows the distance from the array start to 16 bits (full-range-only spacings)","C07 quick: credited_less_than_share",C),
       ("Pinocchio fixed tick: de-initialisation clears only the flag","C07 quick: credited_more_than_share",C)],
"C08":[("Pinocchio extension scan stops after the first entry of interest (fee + hook mints)","C08 quick: token_amounts",C),
       ("Pinocchio pool signer seeds use tick_spacing for fee_tier_index_seed","C12 quick: success_mismatch; C01 quick: drain_step_refused (C08 itself: not caught - a refused withdrawal moves nothing)","MISSED by C08 (caught by C12 / C01)"),
       ("v1 increase_liquidity: the two maxima joined with &&","C08 quick: token_max_exceeded",C)],
"C10":[("dynamic next-init search skips a whole bitmap word when a half is empty","C10 quick: encoding_changes_outcome",C),
       ("swap loop treats MIN / MAX tick as end markers unless the spacing is 1 (spacings 2 and 4)","C10 quick: crossed_ticks; C05 quick","MISSED at first (no world used tick spacing 2 or 4); caught after the worlds also use them"),
       ("Pinocchio pool write-back skipped when the timestamp did not advance","C05 quick: pool_liquidity (C10 itself: not caught - the traversal is right, the cached liquidity is not)","MISSED by C10 (caught by C05 / C01)")],
"C11":[("Anchor reward accrual: the overflowing reward breaks the loop (higher reward slots lose the interval)","C11 quick: credited_less_than_share",C),
       ("v1 set_reward_emissions: switching off skips the settlement at the old rate","C11 quick: credited_less_than_share",C),
       ("swap: crossed ticks keep their reward growths when the pool was already updated at this timestamp","C11 quick: credited_less_than_share",C)],
"C12":[("Pinocchio position update: `continue` on zero reward growth leaves the slot at default","C12 quick: reposition_differs_from_decomposition",C),
       ("Pinocchio decrease_liquidity_v2 compares token program B with mint A's owner (mixed token programs)","C12 quick: success_mismatch",C),
       ("Pinocchio reward growth: next_timestamp <= curr refused (second instruction at one clock reading)","C12 quick: error_code_mismatch",C)],
"C13":[("dynamic next-init search: early-out mask leaves out the start slot","C13 quick: twin_accessor_sequence_next_init",C),
       ("dynamic next-init search: the extreme tick's slot is never examined (spacings 1, 2, 4)","C13 quick: accessor_next_init",C),
       ("Pinocchio slot lookup folds a negative distance with unsigned_abs","C13 quick: twin_accessor_sequence_get_tick",C)],
"C14":[("swap loop breaks when a step ends on the price limit (the accumulator of a skipped stretch is not recomputed)","C14 quick: stored_accumulator",C),
       ("is_major_swap caps the target with MAX_SQRT_PRICE (any move at the top of the range is major)","C14 quick: minor_swap_recorded_as_major",C),
       ("adaptive rate cast to u32 before the cap","C14 quick: step_rate",C)],
"C15":[("set_reward_emissions_v2: the vault is searched among the first reward_index + 1 slots","C15 quick: foreign_account_accepted",C),
       ("set_fee_rate_by_delegated_fee_authority lost the tier / pool config relation","C04 quick: rival_container_accepted (C15 itself: not caught in the quick tier - its worlds have one config, and delegated fee changes are rare there)","MISSED by C15 (caught by C04 after the rival tier of the same index under the attacker's own config)"),
       ("reset_position_range lost has_one = whirlpool","C15 quick: foreign_account_accepted",C)],
"C16":[("Pinocchio extension scan breaks at the first type number above 14 (entries are in initialisation order)","C16 quick: vault_received_less_than_needed",C),
       ("Pinocchio reposition: new-range amount equal to the maximum refused (>=)","C08 quick: bound_edge (C16 itself: not caught)","MISSED by C16 (caught by C08's reposition bound-edge forks)"),
       ("swap_v2 exact-in runs the curve on the fee-included input","C16 quick: user_paid_more_than_maximum",C)],
"C17":[("remaining accounts: an empty slice ends the list","C17 quick: supplemental_arrays_change_outcome; C10 quick","MISSED by C17 at first (its lists kept the real arrays in the regular slots); caught after pool two's arrays are given only as supplemental arrays behind an empty slice"),
       ("two_hop_swap_v2 refuses input account == output account (round trips over two pools of one pair)","C17 quick: rejected_without_reason",C),
       ("two_hop_swap_v2 exact-out refuses partial fills even with an explicit limit on leg two","C17 quick: rejected_without_reason",C)],
"C18":[("PositionBundle::is_deletable counts the open positions in a u8 (256 reads as 0)","C18 quick: non_empty_bundle_deleted","MISSED at first (no bundle is ever full); caught after the deletion is replayed on copies whose bitmap marks one, 255 or all 256 indexes"),
       ("check_is_usable_tick returns true at once for tick spacing 1 (bounds outside the range)","C18 quick: invalid_range_accepted",C),
       ("close_bundled_position drains the lamports by hand (the account stays usable until the transaction ends)","C18 quick: bundle_bitmap",C)],
"C19":[("mint admission: the TLV loop breaks at a TokenMetadata entry","C19 quick: unsupported_mint_admitted",C),
       ("validate_constants: the group-size rule only below the full-range-only threshold","C19 quick: adaptive_fee_tier_out_of_bounds",C),
       ("set_default_protocol_fee_rate caps the argument instead of refusing it","C19 quick: setter_does_not_store_its_argument",C)],
"C20":[("SDK exact-in quote reports the requested input as traded when the loop stops at the end of the price range","C20 quick: sdk_quote_differs","MISSED at first (a quote's echoed input differing from what was charged was recorded as an observation for every mint); caught after the carve-out is limited to input tokens that carry a transfer fee"),
       ("SDK takes an adaptive pool whose tier index is below its tick spacing for static","C20 quick: sdk_fails_where_program_succeeds",C),
       ("SDK centres the core tick-group range on the current group instead of the reference","C20 quick: sdk_amounts_differ",C)],
}
for pid,lst in notes.items():
    ver={}
    for l in open(f'{D}/{pid}/verify.txt'):
        m=re.match(r'(C\d\d)/(\d)\s+(.*)',l.strip())
        if m: ver[m.group(2)]=l.strip()
    for k,(what,det,status) in enumerate(lst,1):
        dst=f'/verif/seeded/{pid}n-{k}'
        os.makedirs(dst,exist_ok=True)
        shutil.copy(f'{D}/{pid}/patch{k}.diff',dst+'/patch.diff')
        shutil.copy(f'{D}/{pid}/demo{k}.diff',dst+'/demo.diff')
        shutil.copy(f'{D}/{pid}/notes{k}.md',dst+'/notes.md')
        files=re.findall(r'^\+\+\+ b/(.*)$',open(dst+'/patch.diff').read(),re.M)
        v=ver[str(k)]
        assert 'patch-only: passed=654 failed=0' in v and re.search(r'demo-only: passed=\d+ failed=0',v) and not re.search(r'patch\+demo: passed=\d+ failed=0',v),(pid,k,v)
        meta={"breaks_property":pid,"round":"fourteenth (themes: loops and their ends; special values of a pool configuration; several instructions in one transaction)","what":what,
          "origin":"independent sub-agent given only the property text and its own scratch worktree",
          "files_changed":files,"needs_to_manifest":"see notes.md (written by the sub-agent)",
          "confirmed_by_me":{"how":"tools/verify_seed.sh in the scratch worktree: (a) patch only -> existing suite, (b) demo only, (c) patch + demo","result":v},
          "checks_run_against_it":"tools/lane_try.sh (scratch worktree of /repo + copy of the simulator, quick tier of the owning check; related checks where noted)",
          "detected_by":det,"first_contact":status}
        json.dump(meta,open(dst+'/meta.json','w'),indent=1)
print("saved")
