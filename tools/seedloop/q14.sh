#!/bin/sh
# usage: q11.sh <lane> <ID>...   (serialised per lane with a lock file)
L=$1; shift
exec 9>/tmp/lane/$L.lock
flock 9
for id in "$@"; do /verif/tools/proc_seed_dir.sh /tmp/seedout14 $id $L > /dev/null 2>&1; done
