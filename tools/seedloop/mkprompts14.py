import json,glob,os,re,collections
props={}
for l in open('/verif/properties.jsonl'):
    p=json.loads(l); props[p['id']]=p
claimed=[i for i in props if i not in ('C02','C09')]
R=14
for pid in claimed:
    p=props[pid]
    used=[];files=collections.Counter()
    for line in open('/verif/DESIGN.md'):
        m=re.match(r'^\| ([^|]+) \| ([^|]+) \|',line)
        if m and re.search(r'\b'+pid+r'[a-e]?-\d',m.group(1)) and not re.search(r'\b'+pid+r'[f-z]-\d',m.group(1)):
            used.append(m.group(2).strip())
    for d in sorted(glob.glob(f'/verif/seeded/{pid}*')):
        try: m=json.load(open(d+'/meta.json'))
        except Exception: continue
        w=m.get('what') or m.get('description') or ''
        if w: used.append(w)
        for f in m.get('files_changed',[]) or re.findall(r'^\+\+\+ b/(.*)$',open(d+'/patch.diff').read(),re.M): files[f]+=1
    t=f'''You are helping to evaluate a verification effort for the open-source project orca-so/whirlpools (a Solana concentrated-liquidity AMM: Anchor program + a hand-written Pinocchio fast path + Rust/TS SDKs). Your job is to play the role of a developer who introduces a subtle, realistic DEFECT.

## Your workspace
* Your own scratch git worktree of the repository: /tmp/wt/{pid}   (work ONLY there; never touch /repo or /verif, never read anything under /verif). Start with `git -C /tmp/wt/{pid} checkout -q -- . && git -C /tmp/wt/{pid} clean -fdq -e target` to make sure it is clean.
* Put your results in /tmp/seedout{R}/{pid}/ (create it).
* No network. Use `CARGO_NET_OFFLINE=true cargo test --workspace --offline` inside the worktree (the toolchain is pinned by the repo). The existing suite has 654 tests, all passing on the unmodified tree.

## The property you must break
Property {pid}: {p['title']}

Statement: {p['statement']}

Quantifier: {json.dumps(p.get('quantifier'))}

Why the existing tests cannot settle it: {p.get('why_tests_cant')}

Anchors (where the behaviour lives): {json.dumps(p.get('anchors'))}

## What to deliver: THREE independent changes (k = 1, 2, 3), each of which
1. is a small, realistic change to NON-test source code of the repository (the kind of slip a maintainer makes in a refactor, optimisation, port, "cleanup", or feature tweak) that makes the property FALSE for some inputs / histories / environments;
2. still compiles, and leaves ALL 654 existing tests passing, unedited;
3. needs something SPECIFIC to manifest - not something ordinary use exposes at once. Use these three themes, one per change:
   * k=1 - **loops and their ends**: the first or the last iteration of a loop, an early `break` / `continue` / `return` inside one, a loop bound off by one, an accumulator initialised or reset inside instead of outside the loop - loops over swap steps, ticks of an array, tick arrays of a sequence, reward slots, remaining-account slices, TLV entries, bitmap words - where short or uniform inputs do not show the difference;
   * k=2 - **special values of a pool's configuration**: tick spacing 1, the full-range-only spacings (32768 and above), a fee rate of 0 or of the maximum, a protocol fee rate of 0 or 2500, no reward / all three rewards, an adaptive-fee pool whose control factor, reduction factor or tick-group size sits at an extreme, a price at the very bottom or top of the range, mints with 0 decimals or the same mint as reward and pool token - a change that is wrong only under one such configuration;
   * k=3 - **several instructions in one transaction**: behaviour that only differs when two or more instructions of this program run in the same transaction on the same accounts (open + deposit + swap + collect + close, initialise + use, delete + create, two swaps in a row, a deposit between two swaps) - a value cached across the instruction boundary, an account that exists with zero lamports until the transaction ends, a check that relies on state another instruction of the same transaction has just changed - in a FILE no earlier change of this property touched if you can (see the file list below).
   Prefer semantically subtle one-token or one-line slips. Study the list of earlier changes below and pick functions / lines that do NOT appear in it.
4. comes with a demonstration: a new test (or tests) added to the repository's own test modules (a unit test next to the code is the simplest) that PASSES on the unmodified tree and FAILS with your change applied, and that shows the property itself being violated (not merely "the code differs").

Already used in earlier rounds for this property - do NOT repeat these or trivial variations of them; pick different sites and mechanisms:
'''+''.join(f'  - {u}\n' for u in used)+'''
Files that earlier changes of this property touched (with counts); for k=3 prefer a file that is NOT in this list:
'''+''.join(f'  - {f} ({n}x)\n' for f,n in files.most_common())+f'''
## Output format (strict; a script consumes it)
For each k in 1,2,3 write, in /tmp/seedout{R}/{pid}/:
* patch{{k}}.diff - `git diff` of the defect alone (non-test code only), relative to the worktree root, applying cleanly with `git apply` on the unmodified tree;
* demo{{k}}.diff  - `git diff` of the demonstration alone (only added tests / test helpers), applying cleanly on the unmodified tree AND together with patch{{k}}.diff (apply demo first, then patch; make sure hunks do not overlap - put the test in a different place of the file or in another file);
* notes{{k}}.md   - what the change is, why it breaks the property, exactly what is needed for it to manifest (state, sequence, timing, inputs), and why the existing tests do not notice.
Verify each yourself: (a) patch only -> 654 pass; (b) demo only -> 654 + your new tests pass; (c) patch + demo -> your new tests fail, the other 654 pass. State the three results in the notes.
Leave the worktree clean at the end (`git checkout -- . && git clean -fdq -e target`). Keep each patch minimal (a few lines). Do not weaken or edit existing tests. Do not add cfg flags or features. Do not spend time on automated mutation searches; three hand-picked changes are what is wanted. If one of the three themes really cannot be done for this property, deliver a different inventive change instead and say so.

Your final message: three short paragraphs (one per change: file, one-line description, what is needed to manifest) and the three verification results.
'''
    open(f'/tmp/prompts/{pid}.r{R}.txt','w').write(t)
    print(pid,len(used),len(t))
