#!/bin/sh
# r11.sh <lane> <outfile> <spec>...   spec = "ID k check1 check2"
L=$1; O=$2; shift 2
S=/tmp/seedout14
exec 9>/tmp/lane/$L.lock; flock 9
for spec in "$@"; do
  set -- $spec; id=$1; k=$2; shift 2
  echo "### $id-$k vs $@" >> $O; /verif/tools/lane_try.sh $L $S/$id/patch$k.diff "$@" 2>&1 | grep -E "^==|FAILED|APPLY" | cut -c1-330 >> $O
done
