#!/bin/sh
# tools/soak.sh <secs per check> [ids...] : thorough tier of every check, output under $WPSIM_OUT (default: cwd)
SECS="${1:-300}"; shift
IDS="${@:-C01 C03 C04 C05 C06 C07 C08 C10 C11 C12 C13 C14 C15 C16 C17 C18 C19 C20}"
export WPSIM_OUT="${WPSIM_OUT:-$(pwd)}"
for id in $IDS; do
  /verif/.target/release/wpsim check $id --tier thorough --secs $SECS --seed ${SOAK_SEED:-5000000}
  echo "== $id exit=$?"
done
