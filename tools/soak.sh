#!/bin/sh
# tools/soak.sh <secs per check> [ids...] : thorough tier of every check, output under $WPSIM_OUT (default: cwd)
SECS="${1:-300}"; shift
IDS="${@:-C01 C03 C04 C05 C06 C07 C08 C10 C11 C12 C13 C14 C15 C16 C17 C18 C19 C20}"
export WPSIM_OUT="${WPSIM_OUT:-$(pwd)}"
# private copy of the binary: later rebuilds in /verif/.target (e.g. with a seeded change applied) must not reach this run
BIN="$WPSIM_OUT/.wpsim.soak.$$"; cp /verif/.target/release/wpsim "$BIN" || exit 2
trap 'rm -f "$BIN"' EXIT
for id in $IDS; do
  "$BIN" check $id --tier thorough --secs $SECS --seed ${SOAK_SEED:-5000000}
  echo "== $id exit=$?"
done
