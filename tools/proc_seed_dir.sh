#!/bin/sh
# tools/proc_seed_dir.sh <seedout dir> <ID> <lane> [extra check ids...] : confirm (verify_seed.sh, in the background) and try
# (lane_try.sh, quick tier of the owning check plus extras) the three changes an agent left in <seedout dir>/<ID>
D="$1"; ID="$2"; LANE="$3"; shift 3
(for k in 1 2 3; do SEEDOUT=$D /verif/tools/verify_seed.sh $ID $k; done > $D/$ID/verify.txt 2>&1 &)
for k in 1 2 3; do
  echo "### $ID $k"
  /verif/tools/lane_try.sh $LANE $D/$ID/patch$k.diff $ID "$@" 2>&1 | grep -E "^==|quick:" | cut -c1-420
done > $D/$ID/try.txt 2>&1
cat $D/$ID/try.txt
