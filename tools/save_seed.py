#!/usr/bin/env python3
# tools/save_seed.py <ID> <k> <property> "<detected by>" "<how it was run>"
import sys,os,json,shutil,re
i,k,prop,detected,ran=sys.argv[1:6]
src='/tmp/seedout/%s'%i
dst='/verif/seeded/%s-%s'%(i,k)
os.makedirs(dst,exist_ok=True)
shutil.copy('%s/patch%s.diff'%(src,k),dst+'/patch.diff')
shutil.copy('%s/demo%s.diff'%(src,k),dst+'/demo.diff')
notes=open('%s/notes%s.md'%(src,k)).read()
open(dst+'/notes.md','w').write(notes)
ver=''
for f in ['/tmp/seedout/verify_batch1.txt','/tmp/seedout/verify_batch2.txt','/tmp/seedout/verify_batch3.txt','/tmp/seedout/verify_batch4.txt','/tmp/seedout/verify_batch5.txt','/tmp/seedout/verify_batch6.txt','/tmp/seedout/verify_batch7.txt','/tmp/seedout/verify_batch8.txt','/tmp/seedout/verify_batch9.txt','/tmp/seedout/verify_batch10.txt','/tmp/seedout/verify_batch11.txt','/tmp/seedout/verify_batch12.txt']:
    if os.path.exists(f):
        for l in open(f):
            if l.startswith('%s/%s '%(i,k)): ver=l.strip()
files=re.findall(r'^\+\+\+ b/(.*)$',open(dst+'/patch.diff').read(),re.M)
meta={"breaks_property":prop,"origin":"independent sub-agent given only the property text and its own scratch worktree","files_changed":files,
 "needs_to_manifest":"see notes.md (written by the sub-agent)",
 "confirmed_by_me":{"how":"tools/verify_seed.sh in the scratch worktree: (a) patch only -> existing suite, (b) demo only, (c) patch + demo","result":ver},
 "checks_run_against_it":ran,"detected_by":detected}
json.dump(meta,open(dst+'/meta.json','w'),indent=1)
print(dst,ver)
