#!/bin/sh
# tools/multiseed.sh <seeds...> : quick tier of every check for several VERIF_SEED values (no-false-alarm soak)
export WPSIM_OUT="${WPSIM_OUT:-$(pwd)}"
BIN="$WPSIM_OUT/.wpsim.multiseed.$$"; cp /verif/.target/release/wpsim "$BIN" || exit 2
trap 'rm -f "$BIN"' EXIT
for seed in "$@"; do
  for id in C01 C03 C04 C05 C06 C07 C08 C10 C11 C12 C13 C14 C15 C16 C17 C18 C19 C20; do
    "$BIN" check $id --tier quick --seed $seed | grep -E "quick:|VIOLATION" | cut -c1-220
    rc=$?
  done
done
