#!/bin/sh
# tools/try_seed.sh <patch file> <check id> [more check ids...]
# applies a seeded change to /repo, runs the given checks (quick), reverts.
P="$1"; shift
cd /repo || exit 2
if ! git apply --check "$P" 2>/dev/null; then echo "PATCH DOES NOT APPLY: $P"; exit 2; fi
git apply "$P"
for id in "$@"; do
  out=$(cd /verif && ./check "$id" --tier quick 2>&1)
  rc=$?
  echo "== $id rc=$rc :: $(echo "$out" | grep -m1 -A1 VIOLATION | tr '\n' ' ' | cut -c1-420)"
  echo "$out" | tail -1
done
git -C /repo checkout -- .
git -C /repo status --short | head -3
