#!/bin/sh
# tools/verify_seed.sh <ID> <k>  -- confirm an agent's seeded change in its scratch worktree:
#  (a) patch only: the existing suite passes; (b) demo only: passes; (c) patch + demo: the demo fails.
ID="$1"; K="$2"; W=/tmp/wt/$ID; S=${SEEDOUT:-/tmp/seedout}/$ID
cd "$W" || exit 2
summ() { grep -E "^test result" | awk '{p+=$4; f+=$6} END {printf "passed=%d failed=%d", p, f}'; }
git checkout -q -- . ; git clean -fdq -e target
git apply "$S/patch$K.diff" || { echo "$ID/$K patch does not apply"; exit 2; }
A=$(cargo test --workspace --offline 2>&1 | summ)
git checkout -q -- . ; git clean -fdq -e target
git apply "$S/demo$K.diff" || { echo "$ID/$K demo does not apply"; exit 2; }
B=$(cargo test --workspace --offline 2>&1 | summ)
git apply "$S/patch$K.diff" || { echo "$ID/$K patch+demo do not apply together"; }
C=$(cargo test --workspace --offline 2>&1 | summ)
git checkout -q -- . ; git clean -fdq -e target
echo "$ID/$K  patch-only: $A | demo-only: $B | patch+demo: $C"
