#!/bin/sh
# tools/regress_seeds.sh [seed dirs...] : re-run every kept seeded change against the CURRENT checks, fully
# outside /repo and /verif: a scratch worktree of /repo and a copy of the simulator under /tmp/regress
# (removed at the end). Writes /verif/seeded/REGRESSION.txt (one line per seeded change).
R=/tmp/regress
rm -rf $R; mkdir -p $R/out
git -C /repo worktree prune
git -C /repo worktree add -q --detach $R/repo HEAD || exit 2
cp -r /verif/sim /verif/vendor /verif/known_findings.json $R/ 2>/dev/null
sed -i "s#/repo/#$R/repo/#g" $R/sim/Cargo.toml
sed -i "s#/verif/.target#$R/target#" $R/sim/.cargo/config.toml
grep -q "$R/target" $R/sim/.cargo/config.toml || { echo "target dir not redirected"; exit 2; }
export CARGO_NET_OFFLINE=true WPSIM_OUT=$R/out WPSIM_KNOWN=$R/known_findings.json
SEEDS="${@:-$(ls -d /verif/seeded/*/ | xargs -n1 basename)}"
OUT=$R/REGRESSION.txt; : > $OUT
cd $R/sim && cargo build --release --offline >$R/build.log 2>&1 || { echo "baseline build failed"; tail $R/build.log; exit 2; }
for s in $SEEDS; do
  d=/verif/seeded/$s
  id=$(python3 -c "import json;print(json.load(open('$d/meta.json'))['breaks_property'])")
  if ! git -C $R/repo apply "$d/patch.diff" 2>/dev/null; then echo "$s $id PATCH-DOES-NOT-APPLY" >> $OUT; continue; fi
  if (cd $R/sim && cargo build --release --offline >$R/build.log 2>&1); then
    o=$($R/target/release/wpsim check $id --tier quick 2>&1); rc=$?
    line=$(echo "$o" | grep -m1 -A1 VIOLATION | tail -1 | cut -c1-160)
    if [ $rc -ne 1 ]; then
      o=$($R/target/release/wpsim check $id --tier thorough --secs 90 2>&1); rc2=$?
      line="(quick missed) thorough rc=$rc2 $(echo "$o" | grep -m1 -A1 VIOLATION | tail -1 | cut -c1-140)"
    fi
    echo "$s $id quick_rc=$rc $line" >> $OUT
  else
    echo "$s $id BUILD-FAILED" >> $OUT
  fi
  git -C $R/repo checkout -q -- .
done
cp $OUT /verif/seeded/REGRESSION.txt
cd /; git -C /repo worktree remove --force $R/repo; rm -rf $R
echo done; grep -c "quick_rc=1" /verif/seeded/REGRESSION.txt
