#!/bin/sh
# tools/regress_par.sh [-j LANES] [seed dirs...] : like regress_seeds.sh, but in LANES parallel lanes (default 4),
# each with its own scratch worktree of /repo, its own copy of the simulator and its own target directory under
# /tmp/regress/L<i> (all removed at the end). Writes /verif/seeded/REGRESSION.txt (one line per seeded change, sorted).
LANES=4
if [ "$1" = "-j" ]; then LANES="$2"; shift 2; fi
R=/tmp/regress
rm -rf $R; mkdir -p $R
git -C /repo worktree prune
SEEDS="${@:-$(ls -d /verif/seeded/*/ | xargs -n1 basename)}"
i=0
for s in $SEEDS; do echo "$s" >> $R/list.$((i % LANES)); i=$((i + 1)); done
lane() {
  L=$R/L$1
  mkdir -p $L/out
  git -C /repo worktree add -q --detach $L/repo HEAD || return 2
  cp -r /verif/sim /verif/vendor /verif/known_findings.json $L/ 2>/dev/null
  sed -i "s#/repo/#$L/repo/#g" $L/sim/Cargo.toml
  sed -i "s#/verif/.target#$L/target#" $L/sim/.cargo/config.toml
  sed -i "s#/verif/vendor#$L/vendor#g" $L/sim/Cargo.toml
  grep -q "$L/target" $L/sim/.cargo/config.toml || { echo "lane $1: target dir not redirected"; return 2; }
  export CARGO_NET_OFFLINE=true WPSIM_OUT=$L/out WPSIM_KNOWN=$L/known_findings.json
  OUT=$L/REGRESSION.txt; : > $OUT
  (cd $L/sim && cargo build --release --offline >$L/build.log 2>&1) || { echo "lane $1: baseline build failed"; tail $L/build.log; return 2; }
  for s in $(cat $R/list.$1 2>/dev/null); do
    d=/verif/seeded/$s
    id=$(python3 -c "import json;print(json.load(open('$d/meta.json'))['breaks_property'])")
    if ! git -C $L/repo apply "$d/patch.diff" 2>/dev/null; then echo "$s $id PATCH-DOES-NOT-APPLY" >> $OUT; continue; fi
    if (cd $L/sim && cargo build --release --offline >$L/build.log 2>&1); then
      o=$($L/target/release/wpsim check $id --tier quick 2>&1); rc=$?
      line=$(echo "$o" | grep -m1 -A1 VIOLATION | tail -1 | cut -c1-160)
      if [ $rc -ne 1 ]; then
        o=$($L/target/release/wpsim check $id --tier thorough --secs 120 2>&1); rc2=$?
        line="(quick missed) thorough rc=$rc2 $(echo "$o" | grep -m1 -A1 VIOLATION | tail -1 | cut -c1-140)"
      fi
      echo "$s $id quick_rc=$rc $line" >> $OUT
    else
      echo "$s $id BUILD-FAILED" >> $OUT
    fi
    git -C $L/repo checkout -q -- .
  done
  git -C /repo worktree remove --force $L/repo
  rm -rf $L/target $L/sim $L/vendor
}
k=0
while [ $k -lt $LANES ]; do lane $k & k=$((k + 1)); done
wait
cat $R/L*/REGRESSION.txt | sort > /verif/seeded/REGRESSION.txt
cd /; rm -rf $R; git -C /repo worktree prune
echo "done: $(grep -c 'quick_rc=1' /verif/seeded/REGRESSION.txt) of $(wc -l < /verif/seeded/REGRESSION.txt) caught by the quick tier of their own check"
grep -v 'quick_rc=1' /verif/seeded/REGRESSION.txt
