#!/bin/sh
# regenerates /verif/sim/src/ixtable.rs from the program sources
cd /repo/programs/whirlpool/src && python3 - <<'EOF' > /verif/sim/src/ixtable.rs
import re,glob
structs={}
for f in sorted(glob.glob('instructions/**/*.rs',recursive=True)):
    s=open(f).read()
    for m in re.finditer(r'#\[derive\(Accounts\)\](.*?)pub struct (\w+)(<[^>]*>)?\s*\{(.*?)\n\}',s,re.S):
        body=m.group(4)
        fields=re.findall(r'pub (\w+):\s*([^\n]*)',body)
        structs[m.group(2)]=[(n,t) for n,t in fields]
lib=open('lib.rs').read()
print("//! GENERATED from /repo/programs/whirlpool/src (instruction -> account names). Regenerate with")
print("//! /verif/tools/gen_ixtable.sh when the program's account structs change.")
print("pub struct IxInfo {\n    pub name: &'static str,\n    pub accounts: &'static [&'static str],\n    pub signers: &'static [&'static str],\n}")
print("#[rustfmt::skip]")
print("pub const IX_TABLE: &[IxInfo] = &[")
for m in re.finditer(r"pub fn (\w+)(<[^>]*>)?\(\s*ctx: Context<(?:'_, '_, '_, 'info, )?(\w+)(<[^>]*>)?>",lib):
    name, st = m.group(1), m.group(3)
    if st not in structs:
        continue
    accts=structs[st]
    names=", ".join('"%s"'%n for n,_ in accts)
    signers=", ".join('"%s"'%n for n,t in accts if t.startswith('Signer'))
    print('    IxInfo { name: "%s", accounts: &[%s], signers: &[%s] },'%(name,names,signers))
print("];")
EOF
