#!/usr/bin/env python3
# Regenerates /verif/MANIFEST.json from the table below (keeps it schema-valid at all times).
import json
props=[json.loads(l) for l in open('/verif/properties.jsonl')]
SIM="deterministic simulation with fault injection (seeded multi-actor histories on a simulated ledger/clock/CPI runtime; "
claimed={
 "C01":("exploration","4.C01/3.C01",SIM+"drain-on-fork oracle after every transaction)","Seeded exploration of multi-actor histories with faults; after every landed transaction a full withdrawal/collection drain is replayed on a fork through the real handlers and the real SPL Token processor, plus conservation, an arithmetic claim bound, CPI-failure atomicity and single-party round-trip probes. Sampling, not proof: a clean batch is evidence over the explored histories only."),
 "C03":("exploration","3.C03",SIM+"balance-delta oracle and threshold +-1 forks on swaps that land on stale views)","Every landed swap (planned on a view that went stale in flight) is checked from balance deltas and pool bytes against the stated bounds; one third are replayed on forks with threshold = realised, -1, +1. Two-hop swaps are covered by C17's check. Sampling over reached pool states."),
 "C05":("exploration","3.C05",SIM+"independent byte-level recomputation of pool/tick aggregates after every transaction)","After every landed transaction the pool liquidity and every tick's net/gross/initialized flag are recomputed from the position accounts with the simulator's own decoders, for both tick-array encodings. Sampling over histories."),
 "C07":("exploration","3.C07",SIM+"exact rational shadow ledger of per-step LP fees vs credited fee_owed)","An exact rational shadow ledger distributes each traced swap step's LP fee over the positions in range at that step; every credit to a position is bounded above by its exact share and below by the share minus bounded rounding (overflow carve-out as documented), including accumulators fast-forwarded to just below wrap-around and ticks (de)initialised by other actors. Sampling over histories."),
 "C08":("exploration","3.C08",SIM+"balance-delta oracle with exact big-integer amounts, bound-edge forks, add-then-remove forks)","Instruction-level: every landed liquidity instruction (Pinocchio live path; the Anchor twin is compared in C12) is checked from balance deltas against exact amounts and rounding directions, with max/min edge cases and add-then-remove replayed on forks. The all-inputs quantifier over the pure conversion functions is not covered by this technique; only states that histories reach."),
 "C10":("exploration","3.C10",SIM+"crossed-tick trace vs abstract tick set; packaging faults on the account list replayed on forks)","For every landed swap the ticks the trace reports as crossed must be exactly the initialized ticks between the current tick before and after, in order, each once, with the implied liquidity; half of the single swaps are replayed on forks under packaging faults (permute, duplicate/omit, supplemental arrays, named-vs-existing-empty arrays, foreign array). Fixed-vs-dynamic independence is C13's twin run. Sampling over reached tick layouts."),
 "C12":("exploration","3.C12",SIM+"whole-instruction differential: live Pinocchio routing vs the Anchor implementation on forks; entrypoint vs public handlers)","Every landed increase/decrease (v1, v2), successful or not and also under injected CPI failures, is re-executed on a fork through the Anchor implementation that is still in the tree and compared byte for byte (all accounts and lamports, CPI sequence, event, error code); every whirlpool instruction runs through both the real entrypoint and the public handlers. By-token-amounts and reposition have no Anchor twin in the tree: their results are checked against the exact oracle in C08 instead. Sampling over reached account contents, not all byte contents."),
 "C13":("exploration","3.C13",SIM+"encoding well-formedness walk, accessor agreement and fixed/dynamic/mixed twin runs of the same seed)","After every landed instruction each touched dynamic array is validated from raw bytes and Anchor's dynamic accessors are compared with the fixed accessors on the decoded content for all 88 slots; each seed is additionally run with fixed, dynamic and mixed arrays and all outcomes and observable states must be equal (this exercises the Pinocchio accessors, which are private, through the live instructions). The exhaustive-subset part of the quantifier is enumeration and is not covered; update orders are sampled."),
 "C17":("exploration","3.C17",SIM+"two-hop vs its two single swaps replayed on forks)","Every landed two-hop (v1, v2; successful or not) is replayed on a fork of its pre-state as two single swaps with matching intermediate amount; success equivalence, byte equality of all pool-side accounts and equality of the trader's balances are required. Sampling over pool-state pairs."),
 "C06":("exploration","3.C06",SIM+"per-step swap trace reconciled with exact big-integer arithmetic, balances and events)","The per-step trace of every landed swap (hook H1) is accepted only if it chains pre-state to post-state, then each step's curve amounts, fee, protocol share and LP growth increment are recomputed exactly and reconciled with account deltas, vault balances and the Traded event; protocol-fee collections are checked to pay exactly what is owed and reset it. Sampling over reached states."),
}
notes={
 "C01":"runtime stub, real SPL Token processor, plain SPL mints only (transfer-fee tokens are C16, reward vaults C11); no locked positions in these worlds; a drain step failing for a reason other than lack of funds is recorded as an observation",
 "C03":"runtime stub; single swaps v1/v2 on plain SPL pools; forks replay the same transaction bytes with only the threshold changed",
 "C05":"runtime stub; positions and arrays are found by scanning program-owned accounts; tick->price conversion is not involved",
 "C07":"hook H1 trace (validated by C06/C10 style chaining); attribution assumes C05 (a step whose liquidity is not the sum of in-range positions is skipped and recorded, never alarmed here)",
 "C08":"plain SPL pools; tick->sqrt-price from the program; reached states only (not the full input domain of the pure functions)",
 "C10":"hook H1 trace for the crossed ticks; abstract tick set from position accounts (C05); an omitted array may legitimately yield a different success (extra step boundary, rounding) - such a variant is only required not to skip initialized ticks",
 "C12":"the Anchor handlers are driven through try_accounts/Context/exit exactly as the #[program] macro would; framework-level error codes of the two account-validation styles are not compared",
 "C13":"Pinocchio accessors are private and reached only through instructions (twin runs + C12); idempotent dynamic initialisation is disabled in twin runs; the two initialisers' error codes for an existing array differ by design",
 "C17":"plain SPL pools; the trader's token accounts for v2 are found by scanning for accounts of the authority",
 "C06":"hook H1 trace is treated as a claim (must chain and reconcile with balances); tick->sqrt-price from the program; plain SPL pools for balance equalities",
}
na={
 "C02":"pure function of its arguments; no schedule, clock, I/O or fault for a simulator to act on (DESIGN.md section 4); reached steps are checked against the exact formulas as part of C06",
 "C09":"pure total function over a finite domain; decided by enumeration, not by simulation (DESIGN.md section 4)",
}
m={"version":1,
 "setup_cmd":"cd /verif/sim && cargo build --release --offline",
 "hooks":{"guard":"--cfg orca_so_whirlpools_verif",
  "enable":"RUSTFLAGS '--cfg orca_so_whirlpools_verif' via /verif/sim/.cargo/config.toml; the simulator crate depends on /repo/programs/whirlpool by path, so every check rebuilds the program from /repo's working tree",
  "baseline_off_cmd":"cd /repo && cargo test --workspace --no-fail-fast --offline",
  "source_commits":["095f6ba","24dfa7a"],"add_only":True},
 "engines":[{"name":"wpsim","path":"/verif/sim","serves_properties":sorted(claimed.keys()),"kind_free_text":"deterministic discrete-event simulator: ledger + runtime stub + real whirlpool/SPL programs + simulated clock + seeded actors/scheduler/fault injector, monitors as invariants and history checks, replay files and delta-debugging minimiser"}],
 "checks":[], "not_applicable":[],
 "notes":"Exit codes: 0 held, 1 violation (VIOLATION line + replay file under /verif/replays), 2 harness error. ./check <ID> --replay <file> re-runs a replay file. Known findings: /verif/known_findings.json."}
for p in props:
    i=p['id']
    if i in claimed:
        lvl,ref,tech,text=claimed[i]
        m["checks"].append({"property_id":i,"quick_cmd":"./check %s --tier quick"%i,"thorough_cmd":"./check %s --tier thorough"%i,
          "evidence_file":"/verif/evidence/%s.json"%i,"replay_cmd_template":"./check %s --replay {path}"%i,"engine":"wpsim",
          "level_claimed":{"category":lvl,"text":text,"design_ref":"DESIGN.md section "+ref},"level_note":notes[i],"technique":tech})
    else:
        m["not_applicable"].append({"property_id":i,"reason":na.get(i,"check not built yet (simulator under construction); not claimed")})
json.dump(m,open('/verif/MANIFEST.json','w'),indent=1)
print("claimed:",sorted(claimed.keys()))
